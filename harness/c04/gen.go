package c04

import (
	"encoding/json"
	"fmt"
	"math"
	"strings"
	"unicode"
	"unicode/utf8"

	"github.com/go-openapi/swag"
	"pgregory.net/rapid"

	"verif/harness/kit"
)

// hostile is the table of constants of DESIGN.md section 3 (alphabets) that every string position mixes in.
var hostile = []string{
	"/", "%", "+", " ", "?", "#", ":", "*", "{", "}", ";", "=", "@", "&", ",", "|", "\\", "\"", "'", "<", ">",
	"%2F", "%2f", "%25", "%2E", "%2e%2e", "%zz", "100%", "..", ".", "...", "..a", "a..", "ü", "€", "😀", "\xff", "\xc3", "\xff\xfe",
	" lead", "trail ", "\t", "a\tb", "a/b", "/a", "a/", "x y", "a+b", "q?x=1&y=2", "#frag", "a#", "{x}", "{p0}", "{", ":id", "*x", "a:b",
	"\r\n", "\n", "a\r\nX-Injected: 1", "\x00", "~", "-", "_", "$", "!", "(", ")", "[", "]", "^", "`", "a,b", "a|b", "a;b=c", ",", "|",
	"\u00a0", "\u0085", "\u2028", "null", "true", "0", "-1", "a=b&c=d", "%u00e9", "+1", " ",
}

var plain = []string{"a", "b", "abc", "x1", "Z", "09", "hello", "v"}

func genStr(t *rapid.T, label string) string {
	switch rapid.IntRange(0, 9).Draw(t, label+"-cls") {
	case 0, 1, 2, 3:
		return rapid.SampledFrom(hostile).Draw(t, label+"-h")
	case 4, 5:
		n := rapid.IntRange(2, 3).Draw(t, label+"-n")
		var b strings.Builder
		for i := 0; i < n; i++ {
			if rapid.Bool().Draw(t, label+"-p") {
				b.WriteString(rapid.SampledFrom(plain).Draw(t, label+"-pl"))
			} else {
				b.WriteString(rapid.SampledFrom(hostile).Draw(t, label+"-h"))
			}
		}
		return b.String()
	case 6, 7:
		return rapid.StringN(0, 8, -1).Draw(t, label+"-u")
	case 8:
		return string(rapid.SliceOfN(rapid.Byte(), 0, 5).Draw(t, label+"-b"))
	default:
		return rapid.SampledFrom(plain).Draw(t, label+"-pl")
	}
}

// pathSafe applies the statement's exclusion: path values that are empty or dot segments are outside the
// guarantee.
func pathSafe(s string) string {
	switch s {
	case "":
		return "-"
	case ".", "..":
		return s + "x"
	}
	return s
}

func dropCTLBytes(s string) string {
	b := make([]byte, 0, len(s))
	for i := 0; i < len(s); i++ {
		if c := s[i]; c < 0x20 && c != '\t' || c == 0x7f {
			continue
		}
		b = append(b, s[i])
	}
	return string(b)
}

// headerSafe applies the documented restriction of header values: no control bytes (a tab inside is allowed),
// no leading or trailing blanks (the HTTP grammar strips them). Bytes >= 0x80 stay as they are.
func headerSafe(s string) string { return strings.Trim(dropCTLBytes(s), " \t") }

var seps = map[string]string{"csv": ",", "pipes": "|", "ssv": " ", "tsv": "\t"}

// itemSafe applies the contract of the separator-joined collection formats: an item is non-empty, contains no
// separator and carries no blanks at its ends (swag.SplitByFormat trims items and drops empty ones).
func itemSafe(s, cf string) string {
	if sep, ok := seps[cf]; ok {
		s = strings.ReplaceAll(s, sep, "")
		s = strings.TrimSpace(s)
		if s == "" {
			return "i"
		}
	}
	return s
}

var int64Edges = []int64{0, 1, -1, math.MaxInt64, math.MinInt64, math.MaxInt64 - 1, math.MinInt64 + 1, math.MaxInt32, math.MinInt32,
	math.MaxInt32 + 1, math.MinInt32 - 1, 1 << 53, 1<<53 + 1, 10, -10, 100000}

func genInt64(t *rapid.T, label string) int64 {
	if rapid.Bool().Draw(t, label+"-edge") {
		return rapid.SampledFrom(int64Edges).Draw(t, label+"-e")
	}
	return rapid.Int64().Draw(t, label)
}

func genFloat(t *rapid.T, label string) float64 {
	if rapid.IntRange(0, 2).Draw(t, label+"-edge") == 0 {
		return rapid.SampledFrom([]float64{0, 1, -1, 0.1, -0.5, math.MaxFloat64, -math.MaxFloat64, math.SmallestNonzeroFloat64, 1e21, 1e-7, 1 << 53, 3.141592653589793, 1e100}).Draw(t, label+"-e")
	}
	f := rapid.Float64().Draw(t, label)
	if math.IsNaN(f) || math.IsInf(f, 0) || f == 0 {
		return 2.5 // also folds -0, which JSON-encodes the case as 0
	}
	return f
}

var (
	queryNames  = []string{"q", "Q", "a b", "a.b", "a[]", "ü", "a+b", "a&b", "x_y", "sort-by", "%41", "k=v", "q2", "limit"}
	headerNames = []string{"X-H0", "x-low", "X-request-ID", "X_under", "x.dot", "X-UPPER-CASE", "Aa", "x-1", "X-Trace"}
	formNames   = []string{"f", "F", "field one", "f.g", "f[]", "é", "n+1", "k&v", "x=y", "name", "f2"}
	fileNames   = []string{"file", "upload", "my file", "f.1", "ö", `q"f`, "a;b", "file[]"}
	pathNames   = []string{"p0", "p1", "p2", "id", "Name", "p_x"}
	literals    = []string{"a", "b", "lit", "x-y", "v.1", "~t", "0", "a_b", "api", "v2", "A"}
	bases       = []string{"", "/", "/api", "/api/", "/v1/x", "/a", "/A.b/c-d/"}
	uploadNames = []string{"a.txt", "dir/b.bin", `q"uote.txt`, `back\slash`, "ü.png", "sp ace.txt", "semi;colon", "per%cent", "a=b", "plus+.x",
		"C:\\dir\\win.txt", "/abs/path/f", "trailing/", "noext", ".hidden", "€", "a'b", "%2F"}
	respHdrNames = []string{"X-Resp", "x-lower", "X-Multi", "Etag", "X_under", "X-Rate-Limit-Remaining"}
)

// pick draws a name that differs from the names already used in the operation, also in its Go spelling:
// go-openapi/analysis keys the parameters of an operation by location and swag.ToGoName(name) (the field name a
// generated client or server would use), so "a.b" and "a b", or "q" and "Q", are one parameter to it - such a
// description cannot be generated code for and is outside the quantifier.
func pick(t *rapid.T, pool []string, used map[string]bool, label string) (string, bool) {
	for try := 0; try < 4; try++ {
		n := rapid.SampledFrom(pool).Draw(t, label)
		k, g := strings.ToLower(n), "go:"+strings.ToLower(swag.ToGoName(n))
		if !used[k] && !used[g] {
			used[k], used[g] = true, true
			return n, true
		}
	}
	return "", false
}

func genDecl(t *rapid.T, in string, used map[string]bool) (Decl, bool) {
	pool := map[string][]string{"query": queryNames, "header": headerNames, "form": formNames, "path": pathNames}[in]
	name, ok := pick(t, pool, used, in+"-name")
	if !ok {
		return Decl{}, false
	}
	d := Decl{Name: name, In: in}
	switch rapid.IntRange(0, 9).Draw(t, in+"-type") {
	case 0, 1, 2, 3:
		d.Type = "string"
	case 4:
		d.Type = "int64"
	case 5:
		d.Type = rapid.SampledFrom([]string{"int32", "bool", "double"}).Draw(t, in+"-scalar")
	default:
		d.Type = "array"
		cfs := []string{"csv", "pipes", "ssv", "tsv", "csv", "pipes"}
		if in == "query" || in == "form" {
			cfs = append(cfs, "multi", "multi", "multi")
		}
		d.CF = rapid.SampledFrom(cfs).Draw(t, in+"-cf")
		d.Item = rapid.SampledFrom([]string{"string", "string", "string", "int64"}).Draw(t, in+"-item")
	}
	if in == "path" && d.Type == "array" && rapid.Bool().Draw(t, "path-noarray") {
		d.Type, d.CF, d.Item = "string", "", ""
	}
	return d, true
}

func genVal(t *rapid.T, d Decl) Val {
	var v Val
	restrict := func(s string) string {
		if d.In == "header" {
			return headerSafe(s)
		}
		return s
	}
	switch d.Type {
	case "string":
		v.S = kit.BStr(restrict(genStr(t, "v")))
		if d.In == "path" {
			v.S = kit.BStr(pathSafe(string(v.S)))
		}
	case "int64":
		v.I = genInt64(t, "vi")
	case "int32":
		v.I = int64(rapid.OneOf(rapid.SampledFrom([]int32{0, 1, -1, math.MaxInt32, math.MinInt32}), rapid.Int32()).Draw(t, "vi32"))
	case "bool":
		v.B = rapid.Bool().Draw(t, "vb")
	case "double":
		v.F = genFloat(t, "vf")
	case "array":
		min := 0
		if d.In == "path" {
			min = 1
		}
		n := rapid.IntRange(min, 3).Draw(t, "nitems")
		for i := 0; i < n; i++ {
			if d.Item == "int64" {
				v.Ints = append(v.Ints, genInt64(t, "item-i"))
			} else {
				s := restrict(genStr(t, "item"))
				s = itemSafe(s, d.CF)
				if d.In == "header" {
					s = headerSafe(s) // a trimmed item has no blanks at its ends, interior tabs stay
				}
				v.Items = append(v.Items, kit.BStr(s))
			}
		}
		if d.In == "path" && d.Item == "string" && len(v.Items) == 1 {
			v.Items[0] = kit.BStr(pathSafe(string(v.Items[0])))
		}
	}
	return v
}

// required may be declared only when the supplied value is one a required parameter accepts: the binder rejects
// an empty value of a required parameter by design (allowEmptyValue is not declared).
func canBeRequired(d Decl, calls []Call, i int) bool {
	for _, c := range calls {
		v := c.Vals[i]
		switch d.Type {
		case "string":
			if v.S == "" {
				return false
			}
		case "array":
			if len(v.Items)+len(v.Ints) == 0 {
				return false
			}
			for _, it := range v.Items {
				if it == "" { // only "multi" can carry an empty item; the binder applies "required" to every item
					return false
				}
			}
		}
	}
	return true
}

// JSON values ----------------------------------------------------------------------------------------

func validUTF8(s string) string {
	if !utf8.ValidString(s) {
		s = strings.ToValidUTF8(s, "?")
	}
	if yamlDoc {
		// gopkg.in/yaml.v3 (trusted base, not under test) does not round-trip every string: a key "\n" comes back
		// as "", a key "<<" is written unquoted and read back as a merge key. The YAML payload is here for the
		// media-type plumbing, not for yaml.v3's quoting, so its strings keep letters, digits and a few harmless
		// punctuation bytes only.
		s = strings.Map(func(r rune) rune {
			if unicode.IsLetter(r) || unicode.IsDigit(r) || strings.ContainsRune(" _-./%+@", r) {
				return r
			}
			return -1
		}, s)
	}
	return s
}

var numberLits = []string{"0", "-0", "1", "-1", "9223372036854775807", "-9223372036854775808", "9223372036854775808", "1.5", "0.1", "1e3", "1E+3", "2.5e-7",
	"123456789012345678901234567890", "1e400", "3.141592653589793238462643383279"}

// yamlDoc restricts the generated document to what a YAML document carries faithfully: numbers are int64 or
// short decimal floats (no 30-digit literals, no 1e400).
var yamlDoc bool

var yamlNumberLits = []string{"0", "1", "-1", "9223372036854775807", "-9223372036854775808", "1.5", "0.25", "-2.5", "1e+21", "4294967296"}

func genJSONValue(t *rapid.T, depth int) interface{} {
	max := 7
	if depth <= 0 {
		max = 5
	}
	switch rapid.IntRange(0, max).Draw(t, "jkind") {
	case 0, 1:
		return validUTF8(genStr(t, "js"))
	case 2:
		if yamlDoc {
			return json.Number(rapid.SampledFrom(yamlNumberLits).Draw(t, "jnum"))
		}
		return json.Number(rapid.SampledFrom(numberLits).Draw(t, "jnum"))
	case 3:
		return json.Number(fmt.Sprint(rapid.Int64().Draw(t, "jint")))
	case 4:
		return rapid.Bool().Draw(t, "jbool")
	case 5:
		return nil
	case 6:
		return genJSONArray(t, depth-1)
	default:
		return genJSONObject(t, depth-1)
	}
}

func genJSONArray(t *rapid.T, depth int) []interface{} {
	n := rapid.IntRange(0, 3).Draw(t, "jlen")
	out := []interface{}{}
	for i := 0; i < n; i++ {
		out = append(out, genJSONValue(t, depth))
	}
	return out
}

func genJSONObject(t *rapid.T, depth int) map[string]interface{} {
	n := rapid.IntRange(0, 3).Draw(t, "jkeys")
	out := map[string]interface{}{}
	for i := 0; i < n; i++ {
		k := validUTF8(genStr(t, "jkey"))
		out[k] = genJSONValue(t, depth)
	}
	return out
}

func jsonText(v interface{}) string {
	b, err := json.Marshal(v)
	if err != nil {
		panic("HARNESS: generated JSON value cannot be marshalled: " + err.Error())
	}
	return string(b)
}

// Files ----------------------------------------------------------------------------------------------

func genFile(t *rapid.T, big bool) File {
	f := File{Name: kit.BStr(rapid.SampledFrom(uploadNames).Draw(t, "fname"))}
	if rapid.IntRange(0, 5).Draw(t, "fname-free") == 0 {
		f.Name = kit.BStr(dropCTLBytes(genStr(t, "fname"))) // a file name is sent inside a MIME header line
	}
	if rapid.IntRange(0, 3).Draw(t, "seekable-source") == 0 {
		f.Seek = true
		f.Pre = rapid.SampledFrom([]int{0, 1, 16, 512, 600}).Draw(t, "preamble")
	}
	switch rapid.IntRange(0, 4).Draw(t, "chunk-kind") {
	case 0:
		f.Chunk = kit.BStr(rapid.SampledFrom([]string{"\r\n--", "\r\n", "--", "\x00", "Content-Disposition: form-data; name=\"x\"\r\n\r\n", "<html>", "%PDF-", "\xff\xd8\xff"}).Draw(t, "chunk-c"))
	default:
		f.Chunk = kit.BStr(rapid.SliceOfN(rapid.Byte(), 1, 16).Draw(t, "chunk"))
	}
	switch rapid.IntRange(0, 11).Draw(t, "flen-kind") {
	case 0:
		f.Len = 0
	case 1, 2, 3:
		f.Len = rapid.IntRange(1, 511).Draw(t, "flen-s")
	case 4:
		f.Len = rapid.SampledFrom([]int{511, 512, 513, 4095, 4096, 4097, 32767, 32768, 32769}).Draw(t, "flen-e")
	case 5, 6, 7:
		f.Len = rapid.IntRange(513, 5000).Draw(t, "flen-m")
	case 8, 9:
		f.Len = rapid.IntRange(5001, 70000).Draw(t, "flen-l")
	default:
		if big {
			f.Len = rapid.IntRange(70001, 1<<21).Draw(t, "flen-xl")
		} else {
			f.Len = rapid.IntRange(70001, 300000).Draw(t, "flen-xl")
		}
	}
	return f
}

// Operations -----------------------------------------------------------------------------------------

func genResult(t *rapid.T, o *Op) Result {
	var r Result
	if rapid.IntRange(0, 2).Draw(t, "responder") == 0 {
		r.Responder = true
		r.Code = rapid.SampledFrom([]int{200, 201, 202, 299, 400, 401, 403, 404, 409, 418, 422, 429, 500, 501, 503, 599}).Draw(t, "code")
		used := map[string]bool{}
		nh := rapid.IntRange(0, 3).Draw(t, "nresp-hdr")
		for i := 0; i < nh; i++ {
			name, ok := pick(t, respHdrNames, used, "resp-hdr")
			if !ok {
				continue
			}
			h := Hdr{Name: name}
			nv := rapid.IntRange(1, 2).Draw(t, "nresp-val")
			for j := 0; j < nv; j++ {
				h.Vals = append(h.Vals, kit.BStr(headerSafe(genStr(t, "resp-val"))))
			}
			r.Headers = append(r.Headers, h)
		}
	}
	if !r.Responder && o.Status == 204 {
		return r // a 204 carries no body by definition of the status
	}
	switch o.Produces {
	case mtJSON:
		if v := genJSONValue(t, 2); v != nil {
			r.JSON = jsonText(v)
		}
	case mtText:
		r.Raw = kit.BStr(genStr(t, "resp-text"))
	default:
		if rapid.IntRange(0, 5).Draw(t, "resp-bin-big") == 0 {
			r.Raw = kit.BStr(rapid.SliceOfN(rapid.Byte(), 100, 3000).Draw(t, "resp-bin"))
		} else {
			r.Raw = kit.BStr(rapid.SliceOfN(rapid.Byte(), 0, 24).Draw(t, "resp-bin"))
		}
	}
	return r
}

func genAuth(t *rapid.T) Auth {
	switch rapid.IntRange(0, 11).Draw(t, "auth") {
	case 0:
		return Auth{Kind: "apikey-header", Name: rapid.SampledFrom([]string{"X-Api-Key", "x-api-key", "X-API-KEY", "Api_Key"}).Draw(t, "auth-name"),
			Value: kit.BStr(nonEmpty(headerSafe(genStr(t, "auth-val"))))}
	case 1:
		return Auth{Kind: "apikey-query", Name: rapid.SampledFrom([]string{"api_key", "API_KEY", "api key", "key&x"}).Draw(t, "auth-name"),
			Value: kit.BStr(nonEmpty(genStr(t, "auth-val")))}
	case 2:
		return Auth{Kind: "basic", User: kit.BStr(strings.ReplaceAll(genStr(t, "auth-user"), ":", "")), Value: kit.BStr(genStr(t, "auth-pass"))}
	case 3:
		return Auth{Kind: "bearer", Value: kit.BStr(nonEmpty(headerSafe(genStr(t, "auth-val"))))}
	case 4, 5:
		return Auth{Kind: "sign", Name: "X-Sign"}
	}
	return Auth{}
}

func nonEmpty(s string) string {
	if s == "" {
		return "k"
	}
	return s
}

func genOp(t *rapid.T, method string, maxCalls int, big bool) Op {
	o := Op{Method: method}
	used := map[string]bool{"body": true, "x-api-key": true, "api_key": true, "api key": true, "key&x": true, "x-sign": true}
	nseg := rapid.IntRange(1, 4).Draw(t, "nseg")
	nparam := 0
	for i := 0; i < nseg; i++ {
		if nparam < 3 && rapid.IntRange(0, 1).Draw(t, "seg-param") == 1 {
			if d, ok := genDecl(t, "path", used); ok {
				o.Tmpl += "/{" + d.Name + "}"
				o.Decls = append(o.Decls, d)
				nparam++
				continue
			}
		}
		o.Tmpl += "/" + rapid.SampledFrom(literals).Draw(t, "seg-lit")
	}
	o.Payload = "none"
	if method == "GET" && rapid.IntRange(0, 3).Draw(t, "get-with-a-body") == 0 {
		o.Payload = "json" // a GET may carry a body; whether it has one is a matter of length and stream (r9)
	}
	if method != "GET" {
		o.Payload = rapid.SampledFrom([]string{"none", "json", "json", "yaml", "form", "form", "multipart", "multipart", "multipart"}).Draw(t, "payload")
		if o.Payload != "none" {
			o.AlsoConsumes = rapid.SampledFrom([]string{"", "", mtJSON, mtYAML}).Draw(t, "also-consumes")
		}
	}
	nq := rapid.IntRange(0, 4).Draw(t, "nqh")
	for i := 0; i < nq; i++ {
		if d, ok := genDecl(t, rapid.SampledFrom([]string{"query", "query", "header"}).Draw(t, "qh-in"), used); ok {
			o.Decls = append(o.Decls, d)
		}
	}
	switch o.Payload {
	case "json", "yaml":
		o.BodyType = rapid.SampledFrom([]string{"object", "object", "array"}).Draw(t, "body-type")
	case "form", "multipart":
		nf := rapid.IntRange(0, 3).Draw(t, "nform")
		for i := 0; i < nf; i++ {
			if d, ok := genDecl(t, "form", used); ok {
				o.Decls = append(o.Decls, d)
			}
		}
		if o.Payload == "multipart" {
			nfiles := rapid.IntRange(0, 2).Draw(t, "nfiles")
			for i := 0; i < nfiles; i++ {
				if n, ok := pick(t, fileNames, used, "file-field"); ok {
					o.FileFields = append(o.FileFields, n)
				}
			}
		}
	}
	o.Produces = rapid.SampledFrom([]string{mtJSON, mtText, mtBytes}).Draw(t, "produces")
	o.Status = rapid.SampledFrom([]int{200, 200, 201, 202, 203, 204, 206, 299}).Draw(t, "status")
	o.Auth = genAuth(t)
	// an API key sent in the query may carry the very name of one of the operation's form fields: the security
	// scheme's key and the form field are different things, and a form field is looked up in the body only
	if o.Auth.Kind == "apikey-query" && rapid.IntRange(0, 1).Draw(t, "auth-clash") == 0 {
		for _, d := range o.Decls {
			if d.In == "form" {
				o.Auth.Name = d.Name
				break
			}
		}
	}
	ncalls := rapid.IntRange(1, maxCalls).Draw(t, "ncalls")
	for ci := 0; ci < ncalls; ci++ {
		var c Call
		for _, d := range o.Decls {
			c.Vals = append(c.Vals, genVal(t, d))
		}
		if o.Payload == "json" || o.Payload == "yaml" {
			yamlDoc = o.Payload == "yaml"
			if o.BodyType == "array" {
				c.Body = jsonText(genJSONArray(t, 2))
			} else {
				c.Body = jsonText(genJSONObject(t, 2))
			}
			yamlDoc = false
			c.Stream = o.Payload == "json" && rapid.IntRange(0, 3).Draw(t, "body-as-a-reader") == 0
		}
		for range o.FileFields {
			c.Files = append(c.Files, genFile(t, big))
		}
		c.Res = genResult(t, &o)
		o.Calls = append(o.Calls, c)
	}
	for i := range o.Decls {
		if o.Decls[i].In != "path" && canBeRequired(o.Decls[i], o.Calls, i) && rapid.IntRange(0, 2).Draw(t, "required") == 0 {
			o.Decls[i].Req = true
		}
	}
	return o
}

var methods = []string{"GET", "POST", "PUT", "DELETE", "PATCH"}

// Gen draws one API description with 1-3 operations (pairwise different methods, so that no value of a path
// parameter can turn the URL of one operation into the URL of another) and 1-3 calls per operation.
func Gen(t *rapid.T) Case {
	c := Case{Base: rapid.SampledFrom(bases).Draw(t, "base")}
	nops := rapid.SampledFrom([]int{1, 1, 1, 2, 2, 3}).Draw(t, "nops")
	ms := rapid.Permutation(methods).Draw(t, "methods")
	for i := 0; i < nops; i++ {
		c.Ops = append(c.Ops, genOp(t, ms[i], 3, kit.Tier() == "thorough"))
	}
	c.TailEOF = rapid.Bool().Draw(t, "last-bytes-arrive-with-eof")
	c.Reuse = rapid.SampledFrom([]string{"", "", "", "before", "between"}).Draw(t, "connection-reuse")
	return c
}
