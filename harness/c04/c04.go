// Package c04 decides property C04 (client and server agree): an operation of a generated API description is
// driven through client.Runtime.Submit the way generated clients drive it, travels over a wire-fidelity
// transport into Context.RoutesHandler of the same description, and the values the server-side untyped handler
// receives are compared with the values the caller supplied; the handler's status, headers and body are compared
// with what the caller's response reader sees.
//
// The oracle is the round trip itself: the supplied Go values on one side, the bound Go values on the other,
// with the standard library (encoding/json, mime) as the only decoder the harness adds.
package c04

import (
	"bytes"
	"crypto/sha256"
	"encoding/hex"
	"encoding/json"
	"fmt"
	"io"
	"math"
	"math/big"
	"mime"
	"net/http"
	"os"
	"path/filepath"
	"reflect"
	"strconv"
	"strings"

	"github.com/go-openapi/loads"
	"github.com/go-openapi/runtime"
	"github.com/go-openapi/runtime/client"
	"github.com/go-openapi/runtime/middleware"
	"github.com/go-openapi/runtime/middleware/untyped"
	"github.com/go-openapi/runtime/security"
	"github.com/go-openapi/runtime/yamlpc"
	"github.com/go-openapi/strfmt"
	"github.com/go-openapi/swag"

	"verif/harness/kit"
)

// Decl declares one non-body, non-file parameter of an operation.
type Decl struct {
	Name string `json:"name"`
	In   string `json:"in"`             // path | query | header | form
	Type string `json:"type"`           // string | int64 | int32 | bool | double | array
	CF   string `json:"cf,omitempty"`   // csv | pipes | ssv | tsv | multi (arrays)
	Item string `json:"item,omitempty"` // string | int64 (arrays)
	Req  bool   `json:"req,omitempty"`
}

// Val is the value a caller supplies for the declaration at the same index.
type Val struct {
	S     kit.BStr   `json:"s,omitempty"`
	I     int64      `json:"i,omitempty"`
	B     bool       `json:"b,omitempty"`
	F     float64    `json:"f,omitempty"`
	Items []kit.BStr `json:"items,omitempty"`
	Ints  []int64    `json:"ints,omitempty"`
}

// File is an upload. Its content is Chunk repeated up to Len bytes (zero bytes when Chunk is empty), so that
// multi-megabyte uploads stay small in a replay file.
type File struct {
	Name  kit.BStr `json:"name"`
	Chunk kit.BStr `json:"chunk,omitempty"`
	Len   int      `json:"len"`
	// Seek: the source handed to the client also implements io.Seeker (as an *os.File does); Pre bytes in front
	// of the content were consumed by the caller before the source was handed over.
	Seek bool `json:"seek,omitempty"`
	Pre  int  `json:"pre,omitempty"`
}

// seekSource is an upload source that can be repositioned.
type seekSource struct {
	*bytes.Reader
	name string
}

func (s seekSource) Name() string { return s.name }
func (s seekSource) Close() error { return nil }

func (f File) source() runtime.NamedReadCloser {
	if !f.Seek {
		return runtime.NamedReader(string(f.Name), bytes.NewReader(f.content()))
	}
	pre := bytes.Repeat([]byte("PREAMBLE"), f.Pre/8+1)[:f.Pre]
	r := bytes.NewReader(append(pre, f.content()...))
	_, _ = r.Seek(int64(f.Pre), io.SeekStart)
	return seekSource{r, string(f.Name)}
}

func (f File) content() []byte {
	b := make([]byte, f.Len)
	if len(f.Chunk) > 0 {
		for i := 0; i < f.Len; i += len(f.Chunk) {
			copy(b[i:], f.Chunk)
		}
	}
	return b
}

// Hdr is a response header the handler sets.
type Hdr struct {
	Name string     `json:"name"`
	Vals []kit.BStr `json:"vals"`
}

// Result is what the handler returns: a plain value (written with the declared success status) or
// middleware.Error(Code, data, Headers).
type Result struct {
	Responder bool     `json:"responder,omitempty"`
	Code      int      `json:"code,omitempty"`
	Headers   []Hdr    `json:"headers,omitempty"`
	JSON      string   `json:"json,omitempty"` // produces application/json: the value as JSON text
	Raw       kit.BStr `json:"raw,omitempty"`  // produces text/plain (a string) or application/octet-stream ([]byte)
}

// Call is one value tuple.
type Call struct {
	Vals  []Val  `json:"vals,omitempty"`  // aligned with Op.Decls
	Body  string `json:"body,omitempty"`  // payload json: the body as JSON text
	Files []File `json:"files,omitempty"` // aligned with Op.FileFields
	Res   Result `json:"res"`
	// Stream (payload json): the caller hands the body over as a reader over its JSON text (length unknown to the
	// client, sent chunked) instead of a value. (r9)
	Stream bool `json:"stream,omitempty"`
}

// Auth is the client auth writer of an operation (and the matching security scheme of the description).
type Auth struct {
	Kind  string   `json:"kind"` // "" | apikey-header | apikey-query | basic | bearer | sign
	Name  string   `json:"name,omitempty"`
	Value kit.BStr `json:"value,omitempty"` // key, token or password
	User  kit.BStr `json:"user,omitempty"`
}

// Op is one operation of the description.
type Op struct {
	Method     string   `json:"method"`
	Tmpl       string   `json:"tmpl"` // e.g. /a/{p0}/b
	Decls      []Decl   `json:"decls,omitempty"`
	Payload    string   `json:"payload"`             // none | json | form | multipart
	BodyType   string   `json:"body_type,omitempty"` // object | array (payload json)
	FileFields []string `json:"file_fields,omitempty"`
	Produces   string   `json:"produces"`
	Status     int      `json:"status"` // declared success status
	Auth       Auth     `json:"auth"`
	Calls      []Call   `json:"calls"`
	// AlsoConsumes: a second media type the operation lists after the one its payload is sent in ("" = none): the
	// description's first entry is what the client sends. (r7)
	AlsoConsumes string `json:"also_consumes,omitempty"`
}

func (o Op) consumesList() []string {
	if o.AlsoConsumes != "" && o.AlsoConsumes != o.consumes() {
		return []string{o.consumes(), o.AlsoConsumes}
	}
	return []string{o.consumes()}
}

// Case is one API description with its operations and the calls made to each.
type Case struct {
	Base string `json:"base"`
	Ops  []Op   `json:"ops"`
	// Reuse: the caller switches connection reuse on (Runtime.EnableConnectionReuse): "before" the first call,
	// "between" the first and the second call of the case, "" never. (r6)
	Reuse string `json:"reuse,omitempty"`
	// TailEOF: the transport delivers the last bytes of a response body together with io.EOF (what net/http does at the
	// end of a length-delimited body) rather than in a read of their own
	TailEOF bool `json:"tail_eof,omitempty"`
}

const (
	mtJSON  = "application/json"
	mtText  = "text/plain"
	mtBytes = "application/octet-stream"
	mtForm  = "application/x-www-form-urlencoded"
	mtMulti = "multipart/form-data"
	mtYAML  = "application/x-yaml"
)

type m = map[string]interface{}

func (o Op) consumes() string {
	switch o.Payload {
	case "form":
		return mtForm
	case "multipart":
		return mtMulti
	case "yaml":
		return mtYAML
	}
	return mtJSON
}

func (o Op) hasBody() bool { return o.Payload == "json" || o.Payload == "yaml" }

func (c Case) spec() m {
	paths := m{}
	secdefs := m{}
	for i, o := range c.Ops {
		var ps []m
		for _, d := range o.Decls {
			in := d.In
			if in == "form" {
				in = "formData"
			}
			p := m{"name": d.Name, "in": in}
			if d.Req || d.In == "path" {
				p["required"] = true
			}
			setType := func(dst m, tpe string) {
				switch tpe {
				case "string":
					dst["type"] = "string"
				case "int64", "int32":
					dst["type"], dst["format"] = "integer", tpe
				case "bool":
					dst["type"] = "boolean"
				case "double":
					dst["type"], dst["format"] = "number", "double"
				}
			}
			if d.Type == "array" {
				items := m{}
				setType(items, d.Item)
				p["type"], p["items"], p["collectionFormat"] = "array", items, d.CF
			} else {
				setType(p, d.Type)
			}
			ps = append(ps, p)
		}
		if o.hasBody() {
			schema := m{"type": "object"}
			if o.BodyType == "array" {
				// no "items": go-openapi/validate rejects a JSON number against the empty schema {} when it is handed
				// json.Number values (which runtime.JSONConsumer produces) - a quirk outside this property
				schema = m{"type": "array"}
			}
			ps = append(ps, m{"name": "body", "in": "body", "required": true, "schema": schema})
		}
		for _, f := range o.FileFields {
			ps = append(ps, m{"name": f, "in": "formData", "type": "file"})
		}
		op := m{
			"operationId": fmt.Sprintf("op%d", i),
			"consumes":    o.consumesList(),
			"produces":    []string{o.Produces},
			"responses": m{
				strconv.Itoa(o.Status): m{"description": "success"},
				"default":              m{"description": "anything else"},
				"422":                  m{"description": "invalid"},
			},
		}
		if ps != nil {
			op["parameters"] = ps
		}
		sec := fmt.Sprintf("sec%d", i)
		switch o.Auth.Kind {
		case "apikey-header":
			secdefs[sec] = m{"type": "apiKey", "name": o.Auth.Name, "in": "header"}
		case "apikey-query":
			secdefs[sec] = m{"type": "apiKey", "name": o.Auth.Name, "in": "query"}
		case "basic":
			secdefs[sec] = m{"type": "basic"}
		case "bearer":
			secdefs[sec] = m{"type": "oauth2", "flow": "accessCode", "authorizationUrl": "http://example.test/auth",
				"tokenUrl": "http://example.test/token", "scopes": m{"read": "r"}}
		}
		if _, ok := secdefs[sec]; ok {
			scopes := []string{}
			if o.Auth.Kind == "bearer" {
				scopes = []string{"read"}
			}
			op["security"] = []m{{sec: scopes}}
		}
		item, _ := paths[o.Tmpl].(m)
		if item == nil {
			item = m{}
			paths[o.Tmpl] = item
		}
		item[strings.ToLower(o.Method)] = op
	}
	doc := m{"swagger": "2.0", "info": m{"title": "c04", "version": "1"}, "paths": paths}
	if c.Base != "" {
		doc["basePath"] = c.Base
	}
	if len(secdefs) > 0 {
		doc["securityDefinitions"] = secdefs
	}
	return doc
}

// observation of one call, filled by the server-side handler, the authenticators and the response reader
type obs struct {
	ran     []int // indices of the operations whose handler ran
	got     map[string]interface{}
	files   map[string]gotFile
	creds   []string // what the authenticator callbacks received
	signed  string   // header value set by the "sign" auth writer
	readers int

	code   int
	ct     string
	hdrs   map[string][]string
	body   []byte
	consOK bool // the consumer handed to the reader decoded the body to the expected value
	consEr string
}

type gotFile struct {
	name    string
	size    int64
	content []byte
	err     error
}

func decodeJSON(text string) (interface{}, error) {
	dec := json.NewDecoder(strings.NewReader(text))
	dec.UseNumber()
	var v interface{}
	if err := dec.Decode(&v); err != nil {
		return nil, err
	}
	return v, nil
}

// resultData is the Go value the handler hands to the producer.
func resultData(o Op, r Result) (interface{}, error) {
	switch o.Produces {
	case mtJSON:
		if r.JSON == "" {
			return nil, nil
		}
		return decodeJSON(r.JSON)
	case mtText:
		return string(r.Raw), nil
	default:
		return []byte(r.Raw), nil
	}
}

func (d Decl) format(v Val) []string {
	switch d.Type {
	case "string":
		return []string{string(v.S)}
	case "int64":
		return []string{swag.FormatInt64(v.I)}
	case "int32":
		return []string{swag.FormatInt32(int32(v.I))}
	case "bool":
		return []string{swag.FormatBool(v.B)}
	case "double":
		return []string{swag.FormatFloat64(v.F)}
	case "array":
		var items []string
		if d.Item == "int64" {
			for _, i := range v.Ints {
				items = append(items, swag.FormatInt64(i))
			}
		} else {
			for _, s := range v.Items {
				items = append(items, string(s))
			}
		}
		return swag.JoinByFormat(items, d.CF)
	}
	return nil
}

// want is the Go value the untyped handler must receive for the declaration.
func (d Decl) want(v Val) interface{} {
	switch d.Type {
	case "string":
		return string(v.S)
	case "int64":
		return v.I
	case "int32":
		return int32(v.I)
	case "bool":
		return v.B
	case "double":
		return v.F
	case "array":
		if d.Item == "int64" {
			return append([]int64{}, v.Ints...)
		}
		out := []string{}
		for _, s := range v.Items {
			out = append(out, string(s))
		}
		return out
	}
	return nil
}

func sameValue(got, want interface{}) bool {
	wv := reflect.ValueOf(want)
	if wv.Kind() == reflect.Slice && wv.Len() == 0 {
		gv := reflect.ValueOf(got)
		return gv.IsValid() && gv.Type() == wv.Type() && gv.Len() == 0
	}
	return reflect.DeepEqual(got, want)
}

func validHeader(h http.Header) error {
	// what http.Transport checks before it writes a request (a custom RoundTripper bypasses that check)
	for k, vv := range h {
		if k == "" {
			return fmt.Errorf("net/http: invalid header field name %q", k)
		}
		for i := 0; i < len(k); i++ {
			c := k[i]
			if !(c >= '0' && c <= '9' || c >= 'a' && c <= 'z' || c >= 'A' && c <= 'Z' || strings.IndexByte("!#$%&'*+-.^_`|~", c) >= 0) {
				return fmt.Errorf("net/http: invalid header field name %q", k)
			}
		}
		for _, v := range vv {
			for i := 0; i < len(v); i++ {
				if c := v[i]; c < 0x20 && c != '\t' || c == 0x7f {
					return fmt.Errorf("net/http: invalid header field value for %q", k)
				}
			}
		}
	}
	return nil
}

type checkedWire struct{ *wire }

func (w checkedWire) RoundTrip(r *http.Request) (*http.Response, error) {
	if err := validHeader(r.Header); err != nil {
		return nil, err
	}
	return w.wire.RoundTrip(r)
}

// Check builds the description, the server and the client of the case and judges every call.
func Check(c Case) *kit.Violation {
	raw, err := json.Marshal(c.spec())
	if err != nil {
		return kit.Failf("HARNESS: the description cannot be marshalled: %v", err)
	}
	var o obs
	var cur *Call
	var handler http.Handler
	if v := kit.Guard("loads.Analyzed/untyped.NewAPI/middleware.NewContext", func() {
		doc, lerr := loads.Analyzed(json.RawMessage(raw), "")
		if lerr != nil {
			err = lerr
			return
		}
		api := untyped.NewAPI(doc)
		api.RegisterConsumer(mtForm, runtime.DiscardConsumer)
		api.RegisterConsumer(mtMulti, runtime.DiscardConsumer)
		api.RegisterConsumer(mtYAML, yamlpc.YAMLConsumer())
		api.RegisterProducer(mtText, runtime.TextProducer())
		api.RegisterProducer(mtBytes, runtime.ByteStreamProducer())
		for i := range c.Ops {
			i := i
			op := c.Ops[i]
			sec := fmt.Sprintf("sec%d", i)
			switch op.Auth.Kind {
			case "apikey-header", "apikey-query":
				api.RegisterAuth(sec, security.APIKeyAuth(op.Auth.Name, strings.TrimPrefix(op.Auth.Kind, "apikey-"), func(tok string) (interface{}, error) {
					o.creds = append(o.creds, tok)
					return "principal", nil
				}))
			case "basic":
				api.RegisterAuth(sec, security.BasicAuth(func(u, p string) (interface{}, error) {
					o.creds = append(o.creds, u, p)
					return "principal", nil
				}))
			case "bearer":
				api.RegisterAuth(sec, security.BearerAuth(sec, func(tok string, scopes []string) (interface{}, error) {
					o.creds = append(o.creds, tok)
					return "principal", nil
				}))
			}
			api.RegisterOperation(op.Method, op.Tmpl, runtime.OperationHandlerFunc(func(data interface{}) (interface{}, error) {
				o.ran = append(o.ran, i)
				o.got, _ = data.(map[string]interface{})
				o.files = map[string]gotFile{}
				for k, v := range o.got {
					if f, ok := v.(runtime.File); ok {
						var gf gotFile
						if f.Header != nil {
							gf.name, gf.size = f.Header.Filename, f.Header.Size
						}
						if f.Data != nil {
							gf.content, gf.err = io.ReadAll(f.Data)
							_ = f.Data.Close()
							if osf, ok := f.Data.(*os.File); ok {
								_ = os.Remove(osf.Name()) // uploads beyond 32 MiB are spilled to the temp dir
							}
						}
						o.files[k] = gf
					}
				}
				data, derr := resultData(op, cur.Res)
				if derr != nil {
					panic("HARNESS: undecodable result in the case: " + derr.Error())
				}
				if cur.Res.Responder {
					var hdr http.Header
					if len(cur.Res.Headers) > 0 {
						hdr = http.Header{}
						for _, h := range cur.Res.Headers {
							for _, v := range h.Vals {
								hdr.Add(h.Name, string(v))
							}
						}
						return middleware.Error(cur.Res.Code, data, hdr), nil
					}
					return middleware.Error(cur.Res.Code, data), nil
				}
				return data, nil
			}))
		}
		handler = middleware.NewContext(doc, api, nil).RoutesHandler(nil)
	}); v != nil {
		return v
	}
	if err != nil {
		return kit.Failf("SPEC the generated description is not accepted: %v\n%s", err, raw)
	}

	w := &wire{h: handler, tailEOF: c.TailEOF}
	rt := client.New("example.test", c.Base, []string{"http"})
	rt.Transport = checkedWire{w}
	if c.Reuse == "before" {
		if v := kit.Guard("Runtime.EnableConnectionReuse", rt.EnableConnectionReuse); v != nil {
			return v
		}
	}
	ncalls := 0

	for oi := range c.Ops {
		op := c.Ops[oi]
		for ci := range op.Calls {
			call := &op.Calls[ci]
			if len(call.Vals) != len(op.Decls) || len(call.Files) != len(op.FileFields) {
				return kit.Failf("HARNESS: call %d of op %d is not aligned with its declarations", ci, oi)
			}
			cur = call
			o = obs{}
			w.served = 0
			where := fmt.Sprintf("base=%q %s %s call %d", c.Base, op.Method, op.Tmpl, ci)
			if ncalls++; ncalls == 2 && c.Reuse == "between" {
				if v := kit.Guard("Runtime.EnableConnectionReuse", rt.EnableConnectionReuse); v != nil {
					return v
				}
			}
			if c.Reuse == "before" || c.Reuse == "between" && ncalls >= 2 {
				where += " (connection reuse switched on)"
			}
			if v := submit(rt, w, oi, op, call, &o, where); v != nil {
				return v
			}
		}
	}
	return nil
}

func authWriter(a Auth, o *obs) runtime.ClientAuthInfoWriter {
	switch a.Kind {
	case "apikey-header":
		return client.APIKeyAuth(a.Name, "header", string(a.Value))
	case "apikey-query":
		return client.APIKeyAuth(a.Name, "query", string(a.Value))
	case "basic":
		return client.BasicAuth(string(a.User), string(a.Value))
	case "bearer":
		return client.BearerToken(string(a.Value))
	case "sign":
		// a writer that asks for the body, the way request-signing writers do
		return runtime.ClientAuthInfoWriterFunc(func(req runtime.ClientRequest, _ strfmt.Registry) error {
			sum := sha256.Sum256(req.GetBody())
			_ = req.GetPath()
			_ = req.GetMethod()
			_ = req.GetQueryParams()
			o.signed = hex.EncodeToString(sum[:8])
			return req.SetHeaderParam(a.Name, o.signed)
		})
	}
	return nil
}

func submit(rt *client.Runtime, w *wire, oi int, op Op, call *Call, o *obs, where string) *kit.Violation {
	wantData, derr := resultData(op, call.Res)
	if derr != nil {
		return kit.Failf("HARNESS: undecodable result in the case: %v", derr)
	}
	var body interface{}
	if op.hasBody() {
		if body, derr = decodeJSON(call.Body); derr != nil {
			return kit.Failf("HARNESS: undecodable body in the case: %v", derr)
		}
		if op.Payload == "yaml" {
			body = plainNumbers(body) // a YAML document has no json.Number: integers and floats travel as such
		}
	}
	cop := &runtime.ClientOperation{
		ID:                 fmt.Sprintf("op%d", oi),
		Method:             op.Method,
		PathPattern:        op.Tmpl,
		ProducesMediaTypes: []string{op.Produces},
		ConsumesMediaTypes: op.consumesList(),
		Schemes:            []string{"http"},
		AuthInfo:           authWriter(op.Auth, o),
	}
	cop.Params = runtime.ClientRequestWriterFunc(func(req runtime.ClientRequest, _ strfmt.Registry) error {
		for i, d := range op.Decls {
			vals := d.format(call.Vals[i])
			var err error
			switch d.In {
			case "path":
				if len(vals) != 1 {
					return fmt.Errorf("HARNESS: path parameter %s has %d formatted values", d.Name, len(vals))
				}
				err = req.SetPathParam(d.Name, vals[0])
			case "query":
				err = req.SetQueryParam(d.Name, vals...)
			case "header":
				err = req.SetHeaderParam(d.Name, vals...)
			case "form":
				err = req.SetFormParam(d.Name, vals...)
			}
			if err != nil {
				return err
			}
		}
		if op.hasBody() {
			var payload interface{} = body
			if call.Stream && op.Payload == "json" {
				payload = struct{ io.Reader }{strings.NewReader(call.Body)}
			}
			if err := req.SetBodyParam(payload); err != nil {
				return err
			}
		}
		for i, f := range op.FileFields {
			if err := req.SetFileParam(f, call.Files[i].source()); err != nil {
				return err
			}
		}
		return nil
	})
	cop.Reader = runtime.ClientResponseReaderFunc(func(rs runtime.ClientResponse, cons runtime.Consumer) (interface{}, error) {
		o.readers++
		o.code = rs.Code()
		o.ct = rs.GetHeader("Content-Type")
		o.hdrs = map[string][]string{}
		for _, h := range call.Res.Headers {
			o.hdrs[h.Name] = rs.GetHeaders(h.Name)
		}
		o.body, _ = io.ReadAll(rs.Body())
		// the consumer selected for the response must decode the body to the handler's value
		if len(o.body) > 0 && cons != nil {
			var cerr error
			switch op.Produces {
			case mtJSON:
				var v interface{}
				cerr = cons.Consume(bytes.NewReader(o.body), &v)
				o.consOK = cerr == nil && equalDoc(v, wantData)
			case mtText:
				var s string
				cerr = cons.Consume(bytes.NewReader(o.body), &s)
				o.consOK = cerr == nil && s == wantData.(string)
			default:
				var b bytes.Buffer
				cerr = cons.Consume(bytes.NewReader(o.body), &b)
				o.consOK = cerr == nil && bytes.Equal(b.Bytes(), wantData.([]byte))
			}
			if cerr != nil {
				o.consEr = cerr.Error()
			}
		} else {
			o.consOK = cons != nil
		}
		return nil, nil
	})

	var serr error
	if v := kit.Guard("Runtime.Submit -> RoutesHandler", func() { _, serr = rt.Submit(cop) }); v != nil {
		return kit.Failf("%s: %s", where, v.Msg)
	}
	if serr != nil {
		return kit.Failf("SUBMIT %s: Submit returned an error for supplied values %s: %v", where, describe(op, call), serr)
	}
	if w.served != 1 || o.readers != 1 {
		return kit.Failf("SUBMIT %s: %d requests reached the server and the reader ran %d times, want 1 and 1", where, w.served, o.readers)
	}
	if len(o.ran) != 1 || o.ran[0] != oi {
		return kit.Failf("HANDLER %s: handlers that ran: %v, want exactly [%d]; request line %s %s; response %d %q; supplied %s",
			where, o.ran, oi, w.method, w.requestURI, o.code, clipb(o.body), describe(op, call))
	}

	// request direction ---------------------------------------------------------------------------
	for i, d := range op.Decls {
		got, present := o.got[d.Name]
		want := d.want(call.Vals[i])
		if !present || !sameValue(got, want) {
			return kit.Failf("PARAM %s: %s parameter %q (%s): supplied %#v, the handler got %#v (present=%v); request line %s %s",
				where, d.In, d.Name, d.typeString(), want, got, present, w.method, w.requestURI)
		}
	}
	if op.Payload == "json" {
		if got := o.got["body"]; !equalDoc(got, body) {
			return kit.Failf("BODY %s: supplied JSON %s, the handler got %#v", where, call.Body, got)
		}
	}
	if op.Payload == "yaml" {
		if got := o.got["body"]; !equalDoc(got, body) {
			return kit.Failf("BODY %s: supplied (as YAML) %s, the handler got %#v", where, call.Body, o.got["body"])
		}
	}
	for i, f := range op.FileFields {
		gf, ok := o.files[f]
		wf := call.Files[i]
		if !ok {
			return kit.Failf("FILE %s: file field %q did not reach the handler (got %#v)", where, f, o.got[f])
		}
		if gf.err != nil {
			return kit.Failf("FILE %s: file field %q cannot be read on the server: %v", where, f, gf.err)
		}
		if wantName := filepath.Base(string(wf.Name)); gf.name != wantName {
			return kit.Failf("FILE %s: file field %q: supplied name %q (base %q), the handler got %q", where, f, wf.Name, wantName, gf.name)
		}
		if !bytes.Equal(gf.content, wf.content()) {
			return kit.Failf("FILE %s: file field %q: supplied %d bytes, the handler got %d bytes (first difference at %d)", where, f, wf.Len, len(gf.content), firstDiff(gf.content, wf.content()))
		}
		if gf.size != int64(wf.Len) {
			return kit.Failf("FILE %s: file field %q: header size %d, want %d", where, f, gf.size, wf.Len)
		}
	}
	switch op.Auth.Kind {
	case "apikey-header", "apikey-query", "bearer":
		if len(o.creds) != 1 || o.creds[0] != string(op.Auth.Value) {
			return kit.Failf("AUTH %s: %s writer sent %q, the authenticator callback got %q", where, op.Auth.Kind, op.Auth.Value, o.creds)
		}
	case "basic":
		if len(o.creds) != 2 || o.creds[0] != string(op.Auth.User) || o.creds[1] != string(op.Auth.Value) {
			return kit.Failf("AUTH %s: basic writer sent %q/%q, the authenticator callback got %q", where, op.Auth.User, op.Auth.Value, o.creds)
		}
	case "sign":
		if got := w.header.Values(op.Auth.Name); len(got) != 1 || got[0] != o.signed {
			return kit.Failf("AUTH %s: the auth writer set %s: %q, the server saw %q", where, op.Auth.Name, o.signed, got)
		}
	}

	// response direction --------------------------------------------------------------------------
	wantCode := op.Status
	if call.Res.Responder {
		wantCode = call.Res.Code
	}
	if o.code != wantCode {
		return kit.Failf("STATUS %s: the handler's status is %d, the reader saw %d (body %q)", where, wantCode, o.code, clipb(o.body))
	}
	for _, h := range call.Res.Headers {
		var want []string
		for _, v := range h.Vals {
			want = append(want, string(v))
		}
		if !reflect.DeepEqual(o.hdrs[h.Name], want) {
			return kit.Failf("HEADER %s: the handler set %s: %q, the reader saw %q", where, h.Name, want, o.hdrs[h.Name])
		}
	}
	if mt, _, perr := mime.ParseMediaType(o.ct); perr != nil || mt != op.Produces {
		return kit.Failf("CONTENT-TYPE %s: the operation produces %s, the reader saw Content-Type %q", where, op.Produces, o.ct)
	}
	if wantCode == http.StatusNoContent {
		if len(o.body) != 0 {
			return kit.Failf("RESPBODY %s: status 204 with a body of %d bytes", where, len(o.body))
		}
		return nil
	}
	switch op.Produces {
	case mtJSON:
		got, jerr := decodeJSON(string(o.body))
		if jerr != nil || !equalDoc(got, wantData) {
			return kit.Failf("RESPBODY %s: the handler returned JSON %s, the reader saw %q (%v)", where, orNull(call.Res.JSON), clipb(o.body), jerr)
		}
	default:
		if !bytes.Equal(o.body, []byte(call.Res.Raw)) {
			return kit.Failf("RESPBODY %s (%s): the handler returned %q, the reader saw %q", where, op.Produces, clipb([]byte(call.Res.Raw)), clipb(o.body))
		}
	}
	if !o.consOK {
		return kit.Failf("CONSUMER %s (%s): the consumer handed to the reader does not decode the body %q to the handler's value (%s)", where, op.Produces, clipb(o.body), o.consEr)
	}
	return nil
}

// equalDoc compares two decoded documents (JSON or YAML): maps by key, sequences by position, strings, booleans
// and null exactly, numbers by their exact numeric value whatever Go type carries them (json.Number, int64,
// float64, ...). A decoder that turns 9223372036854775807 into a float64 therefore does not compare equal, one
// that turns 0 into float64(0) does: the representation is the decoder's choice, the value is not.
func equalDoc(a, b interface{}) bool {
	if ra, ok := numOf(a); ok {
		rb, ok := numOf(b)
		return ok && ra.Cmp(rb) == 0
	}
	switch x := a.(type) {
	case nil:
		return b == nil
	case string:
		y, ok := b.(string)
		return ok && x == y
	case bool:
		y, ok := b.(bool)
		return ok && x == y
	case []interface{}:
		y, ok := b.([]interface{})
		if !ok || len(x) != len(y) {
			return false
		}
		for i := range x {
			if !equalDoc(x[i], y[i]) {
				return false
			}
		}
		return true
	case map[string]interface{}:
		y, ok := b.(map[string]interface{})
		if !ok || len(x) != len(y) {
			return false
		}
		for k, e := range x {
			f, present := y[k]
			if !present || !equalDoc(e, f) {
				return false
			}
		}
		return true
	case map[interface{}]interface{}:
		conv := make(map[string]interface{}, len(x))
		for k, e := range x {
			ks, ok := k.(string)
			if !ok {
				return false
			}
			conv[ks] = e
		}
		return equalDoc(conv, b)
	}
	return false
}

func numOf(v interface{}) (*big.Rat, bool) {
	switch x := v.(type) {
	case json.Number:
		r, ok := new(big.Rat).SetString(string(x))
		return r, ok
	case float64:
		if math.IsNaN(x) || math.IsInf(x, 0) {
			return nil, false
		}
		return new(big.Rat).SetFloat64(x), true
	case float32:
		return numOf(float64(x))
	case int:
		return new(big.Rat).SetInt64(int64(x)), true
	case int64:
		return new(big.Rat).SetInt64(x), true
	case int32:
		return new(big.Rat).SetInt64(int64(x)), true
	case uint64:
		return new(big.Rat).SetFrac(new(big.Int).SetUint64(x), big.NewInt(1)), true
	case uint:
		return numOf(uint64(x))
	}
	return nil, false
}

// plainNumbers rewrites a decoded document so that numbers are int64 or float64 whatever decoder produced them
// (json.Number from encoding/json, int/int64/uint64/float64 from yaml.v3) and empty containers compare equal.
func plainNumbers(v interface{}) interface{} {
	switch x := v.(type) {
	case json.Number:
		if i, err := strconv.ParseInt(string(x), 10, 64); err == nil {
			return i
		}
		f, _ := strconv.ParseFloat(string(x), 64)
		return f
	case int:
		return int64(x)
	case uint64:
		return int64(x)
	case map[string]interface{}:
		out := make(map[string]interface{}, len(x))
		for k, e := range x {
			out[k] = plainNumbers(e)
		}
		return out
	case map[interface{}]interface{}:
		out := make(map[string]interface{}, len(x))
		for k, e := range x {
			out[fmt.Sprint(k)] = plainNumbers(e)
		}
		return out
	case []interface{}:
		out := make([]interface{}, 0, len(x))
		for _, e := range x {
			out = append(out, plainNumbers(e))
		}
		return out
	}
	return v
}

func orNull(s string) string {
	if s == "" {
		return "null"
	}
	return s
}

func firstDiff(a, b []byte) int {
	n := len(a)
	if len(b) < n {
		n = len(b)
	}
	for i := 0; i < n; i++ {
		if a[i] != b[i] {
			return i
		}
	}
	return n
}

func clipb(b []byte) string {
	if len(b) > 300 {
		return string(b[:300]) + fmt.Sprintf("…(+%d bytes)", len(b)-300)
	}
	return string(b)
}

func (d Decl) typeString() string {
	if d.Type == "array" {
		return "array of " + d.Item + " " + d.CF
	}
	return d.Type
}

func describe(op Op, call *Call) string {
	var b strings.Builder
	for i, d := range op.Decls {
		fmt.Fprintf(&b, "%s %s=%#v; ", d.In, d.Name, d.want(call.Vals[i]))
	}
	if op.hasBody() {
		fmt.Fprintf(&b, "body=%s; ", call.Body)
	}
	for i, f := range op.FileFields {
		fmt.Fprintf(&b, "file %s=%q(%d bytes); ", f, call.Files[i].Name, call.Files[i].Len)
	}
	fmt.Fprintf(&b, "payload=%s auth=%s", op.Payload, op.Auth.Kind)
	return b.String()
}
