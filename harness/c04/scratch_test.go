package c04

import (
	"encoding/json"
	"fmt"
	"net/http"
	"net/http/httptest"
	"strings"
	"testing"

	"github.com/go-openapi/loads"
	"github.com/go-openapi/runtime"
	"github.com/go-openapi/runtime/middleware"
	"github.com/go-openapi/runtime/middleware/untyped"
)

func TestScratch(t *testing.T) {
	for _, tc := range []struct{ schema, body string }{
		{`{"type":"array","items":{}}`, `[0]`},
		{`{"type":"array"}`, `[0]`},
		{`{"type":"array","items":{"type":"integer"}}`, `[0]`},
		{`{"type":"array","items":{"type":"number"}}`, `[0.5]`},
		{`{"type":"object"}`, `{"n":0}`},
		{`{"type":"object","properties":{"n":{"type":"integer"}}}`, `{"n":0}`},
		{`{"type":"object","properties":{"n":{}}}`, `{"n":0}`},
		{`{"type":"object","additionalProperties":{}}`, `{"n":0}`},
		{`{"type":"object","additionalProperties":true}`, `{"n":0}`},
		{`{}`, `[0]`},
		{`{}`, `0`},
	} {
		spec := fmt.Sprintf(`{"swagger":"2.0","info":{"title":"x","version":"1"},"paths":{"/a":{"post":{"consumes":["application/json"],"produces":["application/json"],"parameters":[{"name":"body","in":"body","schema":%s}],"responses":{"200":{"description":"ok"}}}}}}`, tc.schema)
		doc, err := loads.Analyzed(json.RawMessage(spec), "")
		if err != nil {
			t.Fatal(err)
		}
		api := untyped.NewAPI(doc)
		var got interface{}
		api.RegisterOperation("POST", "/a", runtime.OperationHandlerFunc(func(d interface{}) (interface{}, error) { got = d; return "ok", nil }))
		h := middleware.NewContext(doc, api, nil).RoutesHandler(nil)
		req := httptest.NewRequest(http.MethodPost, "/a", strings.NewReader(tc.body))
		req.Header.Set("Content-Type", "application/json")
		rec := httptest.NewRecorder()
		got = nil
		h.ServeHTTP(rec, req)
		fmt.Printf("%-70s %-10s -> %d %s got=%#v\n", tc.schema, tc.body, rec.Code, strings.TrimSpace(rec.Body.String()), got)
	}
}
