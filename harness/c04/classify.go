package c04

import (
	"fmt"
	"net/http"
	"sort"
	"strings"
	"unicode/utf8"

	"pgregory.net/rapid"

	"verif/harness/kit"
)

// unreserved bytes are written identically in a path segment, a query string, a form body and a header; every
// other byte is escaped differently in at least two of them (headers carry it raw, url.QueryEscape and
// url.PathEscape disagree on "$&+=:@" and on the blank).
func unreserved(c byte) bool {
	return c >= 'a' && c <= 'z' || c >= 'A' && c <= 'Z' || c >= '0' && c <= '9' || c == '-' || c == '_' || c == '.' || c == '~'
}

func escapedSomewhere(s string) bool {
	for i := 0; i < len(s); i++ {
		if !unreserved(s[i]) {
			return true
		}
	}
	return false
}

func (d Decl) strings(v Val) []string {
	switch d.Type {
	case "string":
		return []string{string(v.S)}
	case "array":
		var out []string
		for _, s := range v.Items {
			out = append(out, string(s))
		}
		return out
	}
	return nil
}

// Classify implements the non-trivial rule of DESIGN.md C04: some supplied value contains a byte that is escaped
// differently in at least two of {path, query, form, header}, or a file is present, or at least two parameters
// share a location.
func Classify(c Case) (bool, []string) {
	labels := map[string]bool{}
	nt := false
	labels[fmt.Sprintf("ops=%d", len(c.Ops))] = true
	labels["base="+c.Base] = true
	if c.TailEOF {
		labels["last bytes of the response body arrive together with io.EOF"] = true
	}
	if c.Reuse != "" {
		labels["connection reuse switched on "+c.Reuse+" the first call"] = true
	}
	for _, o := range c.Ops {
		labels["method="+o.Method] = true
		labels["payload="+o.Payload] = true
		for _, cl := range o.Calls {
			if cl.Stream && o.Payload == "json" {
				labels["body handed over as a reader (sent chunked) under "+o.Method] = true
			}
		}
		if len(o.consumesList()) > 1 {
			labels["consumes lists a second media type after the payload's ("+o.Payload+" then "+o.AlsoConsumes+")"] = true
		}
		labels["produces="+o.Produces] = true
		if o.Auth.Kind != "" {
			labels["auth="+o.Auth.Kind] = true
		} else {
			labels["auth=none"] = true
		}
		if o.Status == http.StatusNoContent {
			labels["declared 204"] = true
		}
		perIn := map[string]int{}
		nph := 0
		for _, d := range o.Decls {
			perIn[d.In]++
			if d.In == "path" {
				nph++
			}
			ts := d.Type
			if d.Type == "array" {
				ts = "array/" + d.CF
				if d.Item == "int64" {
					labels["array of int64"] = true
				}
			}
			labels[d.In+" "+ts] = true
			if d.Req && d.In != "path" {
				labels["required non-path parameter"] = true
			}
			if d.In == "header" && http.CanonicalHeaderKey(d.Name) != d.Name {
				labels["header declared in non-canonical case (F3 class)"] = true
			}
			if (d.In == "query" || d.In == "form") && escapedSomewhere(d.Name) {
				labels["query/form name needing escape"] = true
			}
		}
		labels[fmt.Sprintf("placeholders=%d", nph)] = true
		for in, n := range perIn {
			if n >= 2 {
				nt = true
				labels["≥2 parameters in "+in] = true
			}
		}
		if o.Method == "DELETE" && o.Payload == "form" {
			labels["DELETE with urlencoded payload"] = true
		}
		labels[fmt.Sprintf("files=%d", len(o.FileFields))] = true
		if len(o.FileFields) > 0 {
			nt = true
		}
		if o.Payload == "multipart" && len(o.FileFields) == 0 {
			labels["multipart without files"] = true
		}
		for _, call := range o.Calls {
			for i, d := range o.Decls {
				v := call.Vals[i]
				if d.Type == "array" {
					n := len(v.Items) + len(v.Ints)
					switch {
					case n == 0:
						labels["empty array"] = true
					case n >= 2 && d.CF == "multi":
						labels["repeated values (multi, ≥2)"] = true
					case n >= 2:
						labels["joined array ≥2 items"] = true
					}
				}
				for _, s := range d.strings(v) {
					if escapedSomewhere(s) {
						nt = true
					}
					if s == "" {
						labels["empty string value"] = true
					}
					if !utf8.ValidString(s) {
						labels["value: invalid UTF-8"] = true
					} else if len(s) != len([]rune(s)) {
						labels["value: non-ASCII"] = true
					}
					for _, cl := range []struct{ chars, name string }{
						{"/", "slash"}, {"%", "percent"}, {"+", "plus"}, {" ", "blank"}, {"?#", "? or #"}, {":*", ": or * (F1 class)"},
						{"{}", "brace"}, {"&=;", "& = ;"}, {"\r\n", "CR/LF"}, {"\x00", "NUL"}, {",|", "separator byte"}, {"\"\\", "quote/backslash"},
					} {
						if strings.ContainsAny(s, cl.chars) {
							labels["value: "+cl.name+" in "+d.In] = true
						}
					}
					if d.In == "path" && (s == ":" || s == "*" || s == "#" || strings.HasPrefix(s, ":") || strings.HasPrefix(s, "*")) {
						labels["path value starting with a router meta byte"] = true
					}
				}
				if d.Type == "int64" && (v.I == int64Edges[3] || v.I == int64Edges[4]) {
					labels["int64 extreme"] = true
				}
			}
			for _, f := range call.Files {
				switch {
				case f.Len == 0:
					labels["file: empty"] = true
				case f.Len < 512:
					labels["file: <512"] = true
				case f.Len <= 4096:
					labels["file: 512-4096"] = true
				case f.Len <= 70000:
					labels["file: 4097-70000"] = true
				case f.Len < 32<<20:
					labels["file: >70000"] = true
				default:
					labels["file: ≥32MiB (spilled to disk by the server)"] = true
				}
				if f.Seek {
					labels["file source implements io.Seeker"] = true
					if f.Pre > 0 {
						labels["seekable file source positioned past a consumed preamble"] = true
					}
				}
				if strings.ContainsAny(string(f.Name), "/\\") {
					labels["file name with a directory part"] = true
				}
				if strings.ContainsAny(string(f.Name), "\";%") || escapedNonASCII(string(f.Name)) {
					labels["file name with quote/;/%/non-ASCII"] = true
				}
			}
			if call.Res.Responder {
				labels[fmt.Sprintf("result: middleware.Error %dxx", call.Res.Code/100)] = true
				if len(call.Res.Headers) > 0 {
					labels["result: responder with headers"] = true
				}
				for _, h := range call.Res.Headers {
					if len(h.Vals) > 1 {
						labels["result: repeated response header"] = true
					}
				}
			} else {
				labels["result: plain value"] = true
			}
			if o.Payload == "json" || o.Payload == "yaml" {
				labels[o.Payload+" body "+o.BodyType] = true
			}
		}
	}
	if nt {
		labels["non-trivial"] = true
	}
	out := make([]string, 0, len(labels))
	for l := range labels {
		out = append(out, l)
	}
	sort.Strings(out)
	return nt, out
}

func escapedNonASCII(s string) bool {
	for i := 0; i < len(s); i++ {
		if s[i] >= 0x80 {
			return true
		}
	}
	return false
}

// Exclude names the known finding whose input class the case belongs to.
//
// K4: an operation whose method is DELETE, whose payload is application/x-www-form-urlencoded and which declares
// at least one form field. (Request.ParseForm reads urlencoded bodies only for POST, PUT and PATCH, while the
// client sends them for every method runtime.CanHaveBody admits.)
func Exclude(c Case) string {
	for _, o := range c.Ops {
		if isK4(o) {
			return "K4"
		}
	}
	return ""
}

func isK4(o Op) bool {
	if o.Method != "DELETE" || o.Payload != "form" {
		return false
	}
	for _, d := range o.Decls {
		if d.In == "form" {
			return true
		}
	}
	return false
}

// GenBig draws one multipart upload operation whose files are large: around the server's 32 MiB in-memory
// limit (beyond it mime/multipart spills the part to a temporary file) and a few MiB.
func GenBig(t *rapid.T) Case {
	c := Case{Base: rapid.SampledFrom(bases).Draw(t, "base")}
	o := Op{Method: rapid.SampledFrom([]string{"POST", "PUT", "PATCH"}).Draw(t, "method"), Tmpl: "/upload/{id}", Payload: "multipart",
		Produces: mtJSON, Status: 201}
	o.Decls = []Decl{{Name: "id", In: "path", Type: "string"}, {Name: "note", In: "form", Type: "string"}, {Name: "tags", In: "form", Type: "array", CF: "multi", Item: "string"}}
	if rapid.Bool().Draw(t, "sign") {
		o.Auth = Auth{Kind: "sign", Name: "X-Sign"}
	}
	nfiles := rapid.IntRange(1, 2).Draw(t, "nfiles")
	o.FileFields = []string{"file", "second"}[:nfiles]
	var call Call
	for _, d := range o.Decls {
		call.Vals = append(call.Vals, genVal(t, d))
	}
	for i := 0; i < nfiles; i++ {
		f := genFile(t, true)
		if i == 0 {
			f.Len = rapid.SampledFrom([]int{32<<20 - 1, 32 << 20, 32<<20 + 1, 33 << 20, 5 << 20, 1<<20 + 7}).Draw(t, "biglen")
		}
		call.Files = append(call.Files, f)
	}
	call.Res = Result{JSON: `{"stored":true}`}
	o.Calls = []Call{call}
	c.Ops = []Op{o}
	return c
}

const rule = "API descriptions with 1-3 operations (pairwise different methods among GET/POST/PUT/DELETE/PATCH; 7 base paths; templates of 1-4 segments with 0-3 whole-segment placeholders; " +
	"0-4 query/header parameters and 0-3 form fields of type string/int64/int32/bool/double/array(csv|pipes|ssv|tsv|multi of string|int64), names incl. blanks, '&', '+', non-ASCII and non-canonical header case; " +
	"payload none / JSON or YAML object|array body / urlencoded form / multipart form with 0-2 files; produces json|text|bytes; declared success status; handler result = plain value or middleware.Error(code,data,headers); " +
	"client auth writer none/apikey-header/apikey-query/basic/bearer/body-reading signer) x 1-3 value tuples each (hostile alphabet under the position's documented restriction; path values non-empty and not dot segments; " +
	"items of separator-joined arrays non-empty, separator-free, without blanks at the ends; header values without control bytes and outer blanks); driven by ClientRequestWriter Set*Param calls through Runtime.Submit over the wire double into Context.RoutesHandler; " +
	"oracle = the handler's map equals the supplied typed values, JSON/YAML body equal as decoded document, files equal by field, base name, size and content, exactly one invocation of the right handler, authenticator callback gets the sent credential; " +
	"reader sees the handler's status, headers, body bytes, declared media type, and the selected consumer decodes the value; " +
	"non-trivial = some supplied string contains a byte outside [A-Za-z0-9-_.~] (escaped differently in at least two of path/query/form/header) or a file is present or >=2 parameters share a location; distinct by hash of the whole case"

// Props lists the generated checks of C04.
func Props() []kit.Runner {
	return []kit.Runner{
		kit.Prop[Case]{ID: "C04", Name: "roundtrip", Rule: rule, Quick: 2000, Thorough: 10000,
			Gen: Gen, Check: Check, Classify: Classify, Exclude: Exclude, SampleLimit: 2500},
		kit.Prop[Case]{ID: "C04", Name: "bigfile", Rule: "one multipart upload operation with 1-2 files of 1-33 MiB (around the server's 32 MiB in-memory limit) plus form fields, with and without a body-reading auth writer; same oracle as roundtrip; every case is non-trivial (a file is present)",
			Quick: 4, Thorough: 6, Gen: GenBig, Check: Check, Classify: Classify, SampleLimit: 1200},
	}
}
