#!/bin/bash
# usage: tools/mutant.sh <scratch-worktree> <property-id> <file> <python-replace-old> <python-replace-new> [suite-pkgs]
# Applies a textual mutant to a scratch worktree, checks that it compiles and that the repository's own tests
# still pass, runs the quick check against it (generated tier only), and reverts.
WT=$1; PID=$2; FILE=$3; OLD=$4; NEW=$5; PKGS=${6:-./...}
export GOFLAGS=-mod=mod GOPROXY=off GOSUMDB=off GOTOOLCHAIN=local
cd $WT || exit 9
python3 - "$FILE" "$OLD" "$NEW" <<'PY' || { echo "MUTANT-NOT-APPLIED"; exit 9; }
import sys
p,old,new=sys.argv[1:4]
s=open(p).read()
if s.count(old)<1: sys.exit(1)
open(p,'w').write(s.replace(old,new,1))
PY
if ! go build ./... 2>/tmp/mutbuild.$$; then echo "MUTANT-DOES-NOT-COMPILE"; head -5 /tmp/mutbuild.$$; git checkout -q -- .; exit 9; fi
if go test -vet=off -count=1 $PKGS >/tmp/mutsuite.$$ 2>&1; then echo "suite: passes"; else echo "suite: FAILS (mutant is already killed by the repository's tests)"; grep -m3 -- "--- FAIL" /tmp/mutsuite.$$; fi
cd /verif && VERIF_REPO=$WT VERIF_SKIP_REGRESS=1 ./check $PID quick > /tmp/mutcheck.$$ 2>&1; rc=$?
grep -m2 -A2 "^FAILING-CASE" /tmp/mutcheck.$$ | cut -c1-400
tail -1 /tmp/mutcheck.$$ | cut -c1-200
echo "check exit=$rc"
cd $WT && git checkout -q -- .
rm -f /tmp/mutbuild.$$ /tmp/mutsuite.$$ /tmp/mutcheck.$$
