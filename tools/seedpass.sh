#!/bin/bash
# Final pass over the kept seeded changes, the way the brief prescribes: apply each to /repo itself, run the
# property's registered quick command, undo it straight afterwards. Results go to seeded/RESULTS.tsv.
# usage: tools/seedpass.sh [seed-dir-name ...]   (default: all)
cd /verif || exit 9
[ -z "$(git -C /repo status --porcelain)" ] || { echo "/repo is not clean"; exit 9; }
out=seeded/RESULTS.tsv
[ $# -eq 0 ] && { echo -e "seed\tproperty\tcheck\texit\tfirst violation line" > $out; set -- $(ls seeded | grep -v RESULTS | sort -t- -k1,1 -k2,2n); }
for s in "$@"; do
  d=seeded/$s; [ -f $d/patch.diff ] || continue
  pid=${s%%-*}
  extra=$(python3 -c "import json;print(' '.join(json.load(open('$d/meta.json')).get('also_run',[])))")
  for p in $pid $extra; do
    git -C /repo apply /verif/$d/patch.diff || { echo -e "$s\t$p\tPATCH-DOES-NOT-APPLY" >> $out; continue; }
    VERIF_EVIDENCE_DEV=1 ./check $p quick > /tmp/seedpass.$$ 2>&1; rc=$?
    git -C /repo checkout -- .
    v=$(grep -a -m1 "^VIOLATION" /tmp/seedpass.$$)
    echo -e "$s\t$pid\t$p\t$rc\t$v" | tee -a $out
  done
done
rm -f /tmp/seedpass.$$
[ -z "$(git -C /repo status --porcelain)" ] && echo "/repo clean"
