#!/usr/bin/env python3
"""Rewrites the table of kept seeded changes in DESIGN.md (between the SEEDTABLE markers) from
seeded/RESULTS.tsv (written by tools/seedpass.sh) and seeded/*/meta.json."""
import json, os, csv, re
ROOT = os.path.dirname(os.path.dirname(os.path.abspath(__file__)))
rows = list(csv.reader(open(os.path.join(ROOT, "seeded", "RESULTS.tsv")), delimiter="\t"))[1:]
# a seed may have been passed over more than once (tools/seedpass.sh <seed>... appends): the last row per (seed, check) counts
last = {}
for r in rows:
    if len(r) >= 4:
        last[(r[0], r[2])] = r
by = {}
for r in last.values():
    by.setdefault(r[0], []).append(r)
lines = ["| seed | files changed | mechanism (first line of the author's note) | detected by (registered quick command on /repo with the change applied) |", "|---|---|---|---|"]
missed_first, undetected = 0, []
for s in sorted(by, key=lambda x: (x.split("-")[0], int(x.split("-")[1]))):
    d = os.path.join(ROOT, "seeded", s)
    m = json.load(open(os.path.join(d, "meta.json")))
    note = ""
    if os.path.exists(os.path.join(d, "note.md")):
        for l in open(os.path.join(d, "note.md")):
            l = l.strip().lstrip("#").strip()
            if l:
                note = l
                break
    det = []
    for r in by[s]:
        if r[3] == "1":
            tier = "regress case " + os.path.basename(r[4].split("replay=")[1]) if "harness/regress" in r[4] else "generated tier"
            det.append("%s (%s)" % (r[2], tier))
        else:
            det.append("%s: not detected" % r[2])
    if not any(r[3] == "1" for r in by[s]):
        undetected.append(s)
    extra = " — also by the generated tier alone" if m.get("detected_by_generated_tier_alone") is True and any("regress case" in x for x in det) else ""
    fr = ""
    if "first_run_before_strengthening" in m:
        fr = " *(first run: missed)*"
        missed_first += 1
    lines.append("| %s | %s | %s | %s%s%s |" % (s, ", ".join(m["changed_files"]), note.replace("|", "\\|")[:170], "; ".join(det), extra, fr))
summary = "%d changes kept; %d were missed on their first run and led to a strengthening; not detected by any check at the end: %s." % (
    len(by), missed_first, ", ".join(undetected) if undetected else "none")
block = "<!-- SEEDTABLE:BEGIN -->\n" + summary + "\n\n" + "\n".join(lines) + "\n<!-- SEEDTABLE:END -->"
p = os.path.join(ROOT, "DESIGN.md")
s = open(p).read()
if "<!-- SEEDTABLE:BEGIN -->" in s:
    s = re.sub(r"<!-- SEEDTABLE:BEGIN -->.*?<!-- SEEDTABLE:END -->", lambda _: block, s, flags=re.S)
else:
    raise SystemExit("markers missing")
open(p, "w").write(s)
print(summary)
