#!/bin/bash
# usage: tools/seedrun.sh <property-id> <n> [seed-dir [store-as-n]]
# Confirms a seeded change written by an independent sub-agent (SEED/change<n>.diff + demo<n>_test.go + note<n>.md):
#   1. applies it to a fresh scratch worktree of /repo's HEAD, builds, runs the repository's tests (must pass),
#   2. runs the demonstration with the change (must fail) and without it (must pass),
#   3. runs the property's quick check against the changed tree,
#   4. stores patch, demonstration and meta.json under /verif/seeded/<id>-<n>/.
# Nothing is ever applied to /repo itself here and the scratch worktree is removed at the end.
PID=$1; N=$2; SRC=${3:-/tmp/seed-$PID/_SEED}; [ -d $SRC ] || SRC=/tmp/seed-$PID/SEED
OUTN=${4:-$N}   # number under which the change is stored (second-round changes are stored as 4..6)
export GOFLAGS=-mod=mod GOPROXY=off GOSUMDB=off GOTOOLCHAIN=local
WT=/tmp/seedcheck-$PID-$OUTN
OUT=/verif/seeded/$PID-$OUTN
rm -rf $WT; git -C /repo worktree prune; git -C /repo worktree add -q $WT HEAD || exit 9
cleanup() { git -C /repo worktree remove --force $WT 2>/dev/null; }
trap cleanup EXIT
DIFF=$SRC/change$N.diff; DEMO=$SRC/demo${N}_test.go
[ -f $DIFF ] && [ -f $DEMO ] || { echo "missing $DIFF or $DEMO"; exit 9; }
place=$(grep -m1 -o 'place in: *[^ ]*' $DEMO | sed 's/place in: *//'); place=${place%/}
[ -n "$place" ] || place=.
cd $WT
# without the change: demo must pass
cp $DEMO $place/zz_seed_demo_test.go
go test -vet=off -count=1 ./$place/ -run . > /tmp/seed.$$.demo0 2>&1; demo_without=$?
git apply $DIFF || { echo "PATCH-DOES-NOT-APPLY"; exit 9; }
changed=$(git diff --name-only | tr '\n' ' ')
go build ./... > /tmp/seed.$$.build 2>&1 || { echo "DOES-NOT-COMPILE"; head /tmp/seed.$$.build; exit 9; }
go test -vet=off -count=1 ./$place/ -run . > /tmp/seed.$$.demo1 2>&1; demo_with=$?
rm -f $place/zz_seed_demo_test.go
go test -vet=off -count=1 ./... > /tmp/seed.$$.suite 2>&1; suite=$?
echo "changed files: $changed"
echo "suite with change: exit $suite   demo without change: exit $demo_without   demo with change: exit $demo_with"
[ $suite -ne 0 ] && grep -m5 -- "--- FAIL\|^FAIL" /tmp/seed.$$.suite
[ $demo_without -ne 0 ] && tail -15 /tmp/seed.$$.demo0
confirmed=false
if [ $suite -eq 0 ] && [ $demo_without -eq 0 ] && [ $demo_with -ne 0 ]; then confirmed=true; fi
cd /verif
VERIF_REPO=$WT ./check $PID quick > /tmp/seed.$$.check 2>&1; rc=$?
grep -m3 -A3 "^FAILING-CASE\|^REGRESS-FAILS" /tmp/seed.$$.check | cut -c1-500
tail -2 /tmp/seed.$$.check | cut -c1-300
gen_rc=$rc
if [ $rc -eq 1 ] && grep -q "cases=0 " /tmp/seed.$$.check; then
  # the regress tier (saved cases) caught it before the generators ran: measure the generated tier alone as well
  VERIF_REPO=$WT VERIF_SKIP_REGRESS=1 ./check $PID quick > /tmp/seed.$$.check2 2>&1; gen_rc=$?
  grep -a -m1 -A2 "^FAILING-CASE" /tmp/seed.$$.check2 | cut -c1-400
  tail -1 /tmp/seed.$$.check2 | cut -c1-200
fi
echo "quick check exit=$rc generated-tier-alone exit=$gen_rc confirmed=$confirmed"
if $confirmed; then
  mkdir -p $OUT
  cp $DIFF $OUT/patch.diff; cp $DEMO $OUT/demo_test.go; [ -f $SRC/note$N.md ] && cp $SRC/note$N.md $OUT/note.md
  viol=$(grep -m1 "^VIOLATION" /tmp/seed.$$.check)
  prev=$(cat $OUT/meta.json 2>/dev/null)
  python3 - "$PID" "$OUTN" "$changed" "$rc" "$viol" "$place" "$prev" "$gen_rc" > $OUT/meta.json.new <<'PY'
import json, sys, datetime
pid, n, changed, rc, viol, place, prev, gen_rc = sys.argv[1:9]
keep = {}
try:
    old = json.loads(prev)
    keep = {k: old[k] for k in ("first_run_before_strengthening", "also_run", "note_on_detection") if k in old}
    if "first_run_before_strengthening" not in keep and old.get("detected_by_quick") is False and int(rc) == 1:
        keep["first_run_before_strengthening"] = "missed (exit %s) by the check as it stood when the seed arrived; detected after strengthening (see DESIGN.md section 9)" % old.get("quick_check_exit")
except Exception:
    pass
print(json.dumps({**keep, **{
 "property": pid, "seed": "%s-%s" % (pid, n), "changed_files": changed.split(),
 "demo_package": place,
 "needs_to_manifest": "see note.md",
 "confirmed": {"compiles": True, "repository_tests_pass_with_change": True, "demo_fails_with_change": True, "demo_passes_without_change": True},
 "what_i_ran": ["git apply patch.diff in a scratch worktree of /repo HEAD", "go build ./...", "go test -vet=off -count=1 ./... (exit 0)",
                "go test ./%s/ with demo_test.go: fails with the change, passes without" % place,
                "VERIF_REPO=<worktree> ./check %s quick -> exit %s" % (pid, rc)],
 "quick_check_exit": int(rc), "quick_check_first_violation": viol,
 "detected_by_quick": int(rc) == 1,
 "detected_by_generated_tier_alone": int(gen_rc) == 1,
}}, indent=1))
PY
  mv $OUT/meta.json.new $OUT/meta.json
  echo "stored in $OUT"
fi
rm -f /tmp/seed.$$.*
