#!/usr/bin/env python3
"""Prints the prompt for an independent mutation sub-agent: property text + scratch worktree, nothing from /verif."""
import json, sys
pid, wt = sys.argv[1], sys.argv[2]
# optional third argument: a file with one line per change other engineers already proposed (taken from their own
# notes, nothing about how or whether anything detects them)
already = open(sys.argv[3]).read().strip() if len(sys.argv) > 3 else ""
# optional fourth argument: a further hint on where to look (later rounds)
extra_hint = sys.argv[4] if len(sys.argv) > 4 else ""
p = [json.loads(l) for l in open('/verif/properties.jsonl') if l.strip()]
p = [x for x in p if x['id'] == pid][0]
ALREADY = ""
if already:
    ALREADY = "OTHER ENGINEERS HAVE ALREADY PROPOSED THE FOLLOWING CHANGES FOR THIS PROPERTY - propose DIFFERENT ones (another clause of the property, another code site, another kind of trigger; prefer multi-step sequences, specific concrete standard-library types or values that the code special-cases, faults at a particular point, and effects visible only outside a function's return values" + ("; " + extra_hint if extra_hint else "") + "):\n" + already + "\n\n"
print(f"""You are given a Go library (github.com/go-openapi/runtime: HTTP server middleware and client transport for Swagger/OpenAPI APIs) in a scratch git worktree at {wt} and ONE behavioural property of it. Your job is to write realistic changes to the library that BREAK this property while the library still compiles and ALL of its existing tests still pass — the kind of regression a plausible refactoring, optimisation or "fix" could introduce and a code review could miss.

THE PROPERTY ({p['id']}: {p['title']})
Statement: {p['statement']}
It must hold for: {p['quantifier']['text']}
Code it is anchored in: {', '.join(p['anchors']['files'])}
What can be observed: {'; '.join(p['anchors'].get('observe_at') or [])}

WHAT TO PRODUCE: up to THREE independent changes (different mechanisms, different places if possible). Each change must need something SPECIFIC to manifest — a particular interleaving, a fault at a particular point, a multi-step sequence of operations, an unusual input (a boundary length, a rare byte, a particular combination of options), or two cooperating sites that each look fine alone. Do NOT produce changes that ordinary use would expose at once (e.g. breaking the common path for every input). Keep each change small (a few lines), plausible, and confined to non-test source files of the library.

For each change i = 1..3 write, in the directory {wt}/_SEED/ (create it):
  - change<i>.diff   : the change as `git diff` output relative to the worktree's HEAD (only library source files, no test files)
  - demo<i>_test.go  : a self-contained Go test file (state in a comment at its top in which package directory of the library it must be placed, e.g. `// place in: middleware/`) that FAILS with the change applied and PASSES without it. It must use only the library's existing dependencies and the standard library, run offline, and finish in a few seconds.
  - note<i>.md       : which clause of the property the change breaks, what exactly is needed for it to manifest, and why the existing tests do not notice.

RULES: work only inside {wt} (it is a git worktree: do not run `git commit`, `git worktree`, `git checkout <branch>`; never use `git stash` (it is shared between worktrees); use `git diff > file`, `git checkout -- .` and `git apply file` to move between the changed and unchanged state). Everything is offline: every shell call that runs go needs `export GOFLAGS=-mod=mod GOPROXY=off GOSUMDB=off GOTOOLCHAIN=local`. The existing test suite is `go test -vet=off -count=1 ./...` run in {wt} (about 10 s); it must pass with each change applied on its own (copying your demo file into the tree is only for your own verification: remove it again before running the suite, and leave the worktree's tracked files unchanged at the end — only the untracked _SEED/ directory (the leading underscore keeps the go tool from treating it as a package) stays). Do not look outside {wt} except for the Go standard library and module cache. Verify each change yourself before you report: (1) `go build ./...` succeeds, (2) the suite passes with the change, (3) the demo fails with the change, (4) the demo passes without it.

{ALREADY}FINAL REPORT: for each change, one paragraph: file(s) touched, the mechanism, what is needed to manifest, and the exact commands you ran to verify with their outcomes. If you could only produce fewer than three good changes, say so rather than padding with obvious ones.""")
