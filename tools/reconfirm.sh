#!/bin/bash
# usage: tools/reconfirm.sh <ID>-<n> ...   re-confirms stored seeds (after their patch was rebased onto a new /repo HEAD)
# and refreshes their meta.json through tools/seedrun.sh
cd /verif || exit 9
for s in "$@"; do
  d=seeded/$s; [ -f $d/patch.diff ] || { echo "no $d"; continue; }
  id=${s%%-*}; n=${s##*-}
  src=$(mktemp -d /tmp/reconfirm.XXXXXX)
  cp $d/patch.diff $src/change1.diff; cp $d/demo_test.go $src/demo1_test.go; [ -f $d/note.md ] && cp $d/note.md $src/note1.md
  echo "=== $s"
  tools/seedrun.sh $id 1 $src $n
  rm -rf $src
done
