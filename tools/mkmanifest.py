#!/usr/bin/env python3
"""Regenerates /verif/MANIFEST.json from harness/props.json (claimed checks) and properties.jsonl."""
import json, os
ROOT = os.path.dirname(os.path.dirname(os.path.abspath(__file__)))
import glob
props = {}
for f in sorted(glob.glob(os.path.join(ROOT, "harness", "c[0-9][0-9]", "prop.json"))):
    c = json.load(open(f))
    props[c["id"]] = c
ids = [json.loads(l)["id"] for l in open(os.path.join(ROOT, "properties.jsonl")) if l.strip()]
checks, na = [], []
for pid in ids:
    cfg = props.get(pid)
    if not cfg or cfg.get("unclaimed"):
        na.append({"property_id": pid, "reason": (cfg or {}).get("unclaimed", "check not built yet in this round of work; design in DESIGN.md section 4")})
        continue
    checks.append({
        "property_id": pid,
        "quick_cmd": "./check %s quick" % pid,
        "thorough_cmd": "./check %s thorough" % pid,
        "evidence_file": "evidence/%s.json" % pid,
        "replay_cmd_template": "./check %s --replay {path}" % pid,
        "engine": "rapid-harness",
        "level_claimed": {"category": cfg["level"], "text": cfg["level_text"], "design_ref": "DESIGN.md section 4, %s" % pid},
        "level_note": cfg["level_note"],
        "technique": cfg["technique"],
    })
m = {
    "version": 1,
    "setup_cmd": "./check --build",
    "hooks": {
        "guard": "verif",
        "enable": "no hooks are needed: every observation point is reachable through exported API; checks build /repo as it is (go test -c with a replace directive to /repo)",
        "baseline_off_cmd": "cd /repo && GOFLAGS=-mod=mod GOPROXY=off GOSUMDB=off go test -json -vet=off -count=1 -timeout 25m ./...",
        "source_commits": [],
        "add_only": True,
    },
    "engines": [{
        "name": "rapid-harness", "path": "harness/",
        "serves_properties": [c["property_id"] for c in checks],
        "kind_free_text": "property-based testing with pgregory.net/rapid v1.3.0 (stateless and state-machine generators, shrinking to a replay file) against reference models, round trips through the standard library, differentials and metamorphic relations; native go test -fuzz targets with the same oracles in the thorough tier",
    }],
    "checks": checks,
    "not_applicable": na,
    "notes": "Driver: ./check <ID> quick|thorough|--replay <file>. Exit 0 held / 1 violation (VIOLATION line) / 2 inconclusive. known_findings.json lists recorded (known) and repaired (fixed) defects; regress cases live in harness/regress/<ID>/.",
}
json.dump(m, open(os.path.join(ROOT, "MANIFEST.json"), "w"), indent=1)
print("claimed:", [c["property_id"] for c in checks])
print("not claimed:", [n["property_id"] for n in na])
