#!/usr/bin/env python3
"""alsorun.py <seed> <PROP> <note...>: record in the seed's meta.json that a neighbouring property's check reports it."""
import json, sys
seed, prop, note = sys.argv[1], sys.argv[2], " ".join(sys.argv[3:])
p = "/verif/seeded/%s/meta.json" % seed
m = json.load(open(p))
m["also_run"] = sorted(set(m.get("also_run", []) + [prop]))
m["note_on_detection"] = note
json.dump(m, open(p, "w"), indent=1)
