#!/usr/bin/env python3
"""Prints a markdown table of what each registered quick run covered, from evidence/*.json."""
import json, glob, os
print("| Property | level | sub-check: generated cases / distinct non-trivial | regress cases | excluded (known finding) | wall s |")
print("|---|---|---|---|---|---|")
for f in sorted(glob.glob(os.path.join(os.path.dirname(os.path.dirname(os.path.abspath(__file__))), "evidence", "C*.json"))):
    e = json.load(open(f)); c = e["coverage"]
    subs = "; ".join("%s: %d / %d" % (k, v["evaluations"], v["distinct_nontrivial"]) for k, v in sorted(c["per_check"].items()))
    exc = ", ".join("%s: %d" % kv for kv in sorted(c.get("excluded_by_known_finding", {}).items())) or "—"
    print("| %s | %s (%s) | %s | %d | %s | %.0f |" % (e["property_id"], e["level"], e["tier"], subs, c.get("regress_cases_replayed", 0), exc, e["wall_s"]))
